//! vcrash: crash points as generated input. A scenario child (`vchild`) runs under the
//! pre-installed `strace` with fault injection: `inject=<call>:signal=SIGKILL:when=<k>` kills
//! the child on entry to the k-th call of that name (the call does not execute);
//! `signal=SIGSTOP` stops it after each matching call returned (stepping, C07).
//! strace counts `when=` per system call name, so a crash index of the reference trace is
//! translated into (name, ordinal of that name since process start).

use std::path::{Path, PathBuf};
use std::process::{Command, Stdio};

/// the state-changing system calls that count as crash points
pub const SYSCALLS: &str = "open,openat,creat,ftruncate,mmap,munmap,rename,renameat,renameat2,unlink,unlinkat,mkdir,mkdirat,rmdir,fcntl,flock,chmod,fchmod,fchmodat,write,pwrite64,close,socket,socketpair,bind,connect,listen,sendto,sendmsg,link,linkat,symlink,symlinkat,shutdown";

#[derive(Clone, Debug)]
pub struct Call {
    /// position in the region (0-based)
    pub index: usize,
    pub name: String,
    /// 1-based ordinal among calls of this name since process start (what strace's when= counts)
    pub ordinal: u32,
    pub phase: String,
    pub text: String,
}

#[derive(Clone, Debug, Default)]
pub struct Trace {
    pub calls: Vec<Call>,
    pub completed: bool,
}

pub fn vchild_exe() -> PathBuf {
    let me = std::env::current_exe().expect("current exe");
    me.parent().unwrap().join("vchild")
}

fn parse_log(log: &str) -> Trace {
    let mut counts: std::collections::HashMap<String, u32> = Default::default();
    let mut phase = String::new();
    let mut in_region = false;
    let mut t = Trace::default();
    for line in log.lines() {
        // "<pid> name(args) = ret" ; skip signal / exit lines and unfinished/resumed pairs' tails
        let Some((_, rest)) = line.split_once(' ') else { continue };
        let rest = rest.trim_start();
        if rest.starts_with("+++") || rest.starts_with("---") || rest.starts_with("<...") {
            continue;
        }
        let Some(par) = rest.find('(') else { continue };
        let name = rest[..par].to_string();
        if !name.chars().all(|c| c.is_ascii_alphanumeric() || c == '_') || name.is_empty() {
            continue;
        }
        let c = counts.entry(name.clone()).or_insert(0);
        *c += 1;
        if name == "write" {
            if let Some(i) = rest.find("VERIF_PHASE:") {
                let p: String = rest[i + 12..].chars().take_while(|ch| *ch != '"').collect();
                if p == "begin" {
                    in_region = true;
                } else if p == "end" {
                    in_region = false;
                    t.completed = true;
                }
                phase = p;
                continue;
            }
        }
        if in_region {
            t.calls.push(Call { index: t.calls.len(), name, ordinal: *c, phase: phase.clone(), text: rest.chars().take(160).collect() });
        }
    }
    t
}

/// Runs the child once without injection and returns the calls between the begin and end markers.
pub fn reference_trace(args: &[String], envs: &[(String, String)], log: &Path) -> Result<Trace, String> {
    let _ = std::fs::remove_file(log);
    let st = Command::new("strace")
        .arg("-f")
        .arg("-o")
        .arg(log)
        .arg("-e")
        .arg(format!("trace={SYSCALLS}"))
        .arg(vchild_exe())
        .args(args)
        .envs(envs.iter().cloned())
        .stdin(Stdio::null())
        .stdout(Stdio::null())
        .stderr(Stdio::piped())
        .output()
        .map_err(|e| format!("cannot run strace: {e}"))?;
    let txt = std::fs::read_to_string(log).map_err(|e| format!("no strace log: {e}"))?;
    let t = parse_log(&txt);
    if !st.status.success() || !t.completed {
        return Err(format!("reference run failed: status {:?} stderr {}", st.status, String::from_utf8_lossy(&st.stderr)));
    }
    Ok(t)
}

#[derive(Debug)]
pub struct KillOutcome {
    /// the child was killed by the injected signal (false: it ran to completion — the call
    /// counts differed from the reference trace)
    pub killed: bool,
    pub stderr: String,
}

/// Runs the child and kills it on entry to `call`.
pub fn run_killed(args: &[String], envs: &[(String, String)], call: &Call, log: &Path) -> Result<KillOutcome, String> {
    let _ = std::fs::remove_file(log);
    let out = Command::new("strace")
        .arg("-f")
        .arg("-o")
        .arg(log)
        .arg("-e")
        .arg(format!("trace={SYSCALLS}"))
        .arg("-e")
        .arg(format!("inject={}:signal=SIGKILL:when={}", call.name, call.ordinal))
        .arg(vchild_exe())
        .args(args)
        .envs(envs.iter().cloned())
        .stdin(Stdio::null())
        .stdout(Stdio::null())
        .stderr(Stdio::piped())
        .output()
        .map_err(|e| format!("cannot run strace: {e}"))?;
    let txt = std::fs::read_to_string(log).unwrap_or_default();
    let killed = txt.contains("+++ killed by SIGKILL +++");
    Ok(KillOutcome { killed, stderr: String::from_utf8_lossy(&out.stderr).to_string() })
}

/// Runs the child with the atomic-write crash hook: it kills itself at its n-th shared-memory
/// atomic write. `n = None` only counts (returns the number of atomic writes of a full run).
pub fn run_atomic(args: &[String], n: Option<u64>) -> Result<(bool, u64), String> {
    let out = Command::new(vchild_exe())
        .args(args)
        .env("VERIF_CHILD_ATOMIC_KILL", n.map(|v| v.to_string()).unwrap_or_else(|| "count".into()))
        .stdin(Stdio::null())
        .stdout(Stdio::null())
        .stderr(Stdio::piped())
        .output()
        .map_err(|e| format!("cannot run child: {e}"))?;
    use std::os::unix::process::ExitStatusExt;
    let killed = out.status.signal() == Some(libc::SIGKILL);
    let err = String::from_utf8_lossy(&out.stderr).to_string();
    let count = err.lines().find_map(|l| l.strip_prefix("VERIF_ATOMIC_WRITES=")).and_then(|v| v.trim().parse().ok()).unwrap_or(0);
    if !killed && !out.status.success() {
        return Err(format!("child failed: {:?} {err}", out.status));
    }
    Ok((killed, count))
}

/// Stepping (C07): the child is stopped (SIGSTOP) right after `call` returned; the caller
/// inspects the system from its own process while the victim is frozen at that boundary, then
/// lets it finish (`resume_to_end`) or kills it (`kill`). One run per stop point keeps every
/// observation a pure function of (scenario, call).
pub struct StoppedChild {
    strace: std::process::Child,
    pub victim_pid: i32,
}

fn children_of(pid: u32) -> Vec<i32> {
    let mut v = vec![];
    if let Ok(rd) = std::fs::read_dir(format!("/proc/{pid}/task")) {
        for t in rd.flatten() {
            if let Ok(s) = std::fs::read_to_string(t.path().join("children")) {
                v.extend(s.split_whitespace().filter_map(|x| x.parse::<i32>().ok()));
            }
        }
    }
    v
}

pub fn proc_state(pid: i32) -> Option<char> {
    let s = std::fs::read_to_string(format!("/proc/{pid}/stat")).ok()?;
    let close = s.rfind(')')?;
    s[close + 1..].trim_start().chars().next()
}

pub enum StopResult {
    Stopped(StoppedChild),
    /// the child finished without reaching the call (call counts differ from the reference)
    Finished,
}

pub fn run_stopped_after(args: &[String], envs: &[(String, String)], call: &Call, log: &Path) -> Result<StopResult, String> {
    let _ = std::fs::remove_file(log);
    let mut strace = Command::new("strace")
        .arg("-f")
        .arg("-o")
        .arg(log)
        .arg("-e")
        .arg(format!("trace={SYSCALLS}"))
        .arg("-e")
        .arg(format!("inject={}:signal=SIGSTOP:when={}", call.name, call.ordinal))
        .arg(vchild_exe())
        .args(args)
        .envs(envs.iter().cloned())
        .stdin(Stdio::null())
        .stdout(Stdio::null())
        .stderr(Stdio::null())
        .spawn()
        .map_err(|e| format!("cannot run strace: {e}"))?;
    let t0 = std::time::Instant::now();
    let mut victim: Option<i32> = None;
    loop {
        if let Ok(Some(_)) = strace.try_wait() {
            return Ok(StopResult::Finished);
        }
        if victim.is_none() {
            victim = children_of(strace.id()).first().copied();
        }
        if let Some(p) = victim {
            if matches!(proc_state(p), Some('T') | Some('t')) {
                // make sure it is the injected group stop, not a transient ptrace stop: it must persist
                std::thread::sleep(std::time::Duration::from_millis(2));
                if matches!(proc_state(p), Some('T') | Some('t')) {
                    return Ok(StopResult::Stopped(StoppedChild { strace, victim_pid: p }));
                }
            }
        }
        if t0.elapsed() > std::time::Duration::from_secs(30) {
            if let Some(p) = victim {
                unsafe { libc::kill(p, libc::SIGKILL) };
            }
            let _ = strace.kill();
            let _ = strace.wait();
            return Err("victim neither stopped nor exited within 30 s".into());
        }
        std::thread::sleep(std::time::Duration::from_micros(300));
    }
}

impl StoppedChild {
    /// lets the victim run to completion; true if it exited with status 0
    pub fn resume_to_end(mut self) -> bool {
        unsafe { libc::kill(self.victim_pid, libc::SIGCONT) };
        self.strace.wait().map(|s| s.success()).unwrap_or(false)
    }

    pub fn kill(mut self) {
        unsafe { libc::kill(self.victim_pid, libc::SIGKILL) };
        let _ = self.strace.wait();
    }
}
