//! iceoryx2-level helpers shared by several check packages: isolated domains with leftover
//! scanning, and the crash engine (strace fault injection).
extern crate iceoryx2_bb_loggers;

pub mod domain;
pub mod msg;
pub mod vcrash;
pub mod vtrace;

pub fn silence_iceoryx_log() {
    if let Ok(v) = std::env::var("VERIF_LOG") {
        iceoryx2_log::set_log_level(if v == "trace" { iceoryx2_log::LogLevel::Trace } else { iceoryx2_log::LogLevel::Debug });
        return;
    }
    iceoryx2_log::set_log_level(iceoryx2_log::LogLevel::Fatal);
}
