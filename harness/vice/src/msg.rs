//! Self-checking payload shared by scenario children and survivors: [tag, tag * K, !tag].
use iceoryx2::prelude::*;

#[derive(Debug, Clone, Copy, PartialEq, Eq, ZeroCopySend)]
#[repr(C)]
pub struct Msg {
    pub tag: u64,
    pub mul: u64,
    pub inv: u64,
}

const K: u64 = 0x9E37_79B9_7F4A_7C15;

impl Msg {
    pub fn new(tag: u64) -> Msg {
        Msg { tag, mul: tag.wrapping_mul(K), inv: !tag }
    }
    pub fn ok(&self) -> bool {
        self.mul == self.tag.wrapping_mul(K) && self.inv == !self.tag
    }
}
