//! C04 — crash at any instant: survivor cleanup restores a clean, usable system.
//!
//! The generated input is the crash point: a scenario child (`vchild`) is run under the ptrace
//! stepper (`vice::vtrace`) up to the entry of its n-th state-changing system call (or up to its
//! n-th shared-memory atomic write) and killed there. The survivor oracle then runs in this
//! process, which shares the domain (and for the `join_*` scenarios the service) with the victim.
extern crate iceoryx2_bb_loggers;

use iceoryx2::node::{NodeCleanupFailure, NodeState, NodeView};
use iceoryx2::prelude::*;
use serde::{Deserialize, Serialize};
use std::collections::BTreeMap;
use vcore::{Ctx, Failure, Obs, Spec, ensure, fail};
use vice::domain::Domain;
use vice::msg::Msg;
use vice::vtrace;

const SPEC: Spec = Spec {
    prop: "C04",
    level: "fault_enumeration",
    rule: "case = (lifecycle scenario, crash point); crash points are enumerated from a reference run of the scenario child: every state-changing system call between its begin and end markers (the child is killed on entry to the call, i.e. after the previous one returned), every shared-memory atomic write, and pairs (victim crash point, cleaner crash point) for a second crash during cleanup; after the kill the survivor oracle runs in the harness process: Node::list verdicts, stale-resource removal, continued use of a shared service with a fresh peer, leftover scan of the isolated root and /dev/shm, re-creation of the service name with different settings; non-trivial = the victim died strictly inside the scenario after it had created at least one resource that somebody else had to remove (leftovers existed right after the kill); distinct = (scenario, crash kind, index[, second index])",
    assumptions: &[
        "crash granularity is the system call and the atomic write, not the machine instruction",
        "the victim is a single-threaded process; SIGKILL delivered at a ptrace syscall-entry stop prevents the call from executing",
        "local::Service is not exercised: its resources die with the process by construction",
    ],
    watchdog_quick_s: 1500,
    watchdog_thorough_s: 10800,
};

type S = ipc::Service;

#[derive(Clone, Debug, Serialize, Deserialize, Hash)]
pub struct CrashCase {
    pub scenario: String,
    /// "syscall" | "atomic"
    pub kind: String,
    pub n: u64,
    /// second crash: the cleaner child is killed at this step (syscall steps), None = no second crash
    pub cleaner_n: Option<u64>,
}

const SOLO: &[&str] = &["node_only", "solo_pubsub", "solo_event", "solo_reqres", "solo_blackboard"];
const JOIN: &[&str] = &["join_pub", "join_sub", "join_notifier", "join_listener", "join_client", "join_server", "join_reader", "join_writer"];

fn exe() -> std::path::PathBuf {
    std::env::current_exe().unwrap().parent().unwrap().join("vchild")
}

fn child_args(d: &Domain, scenario: &str) -> Vec<String> {
    vec![d.root.to_str().unwrap().to_string(), d.prefix.clone(), scenario.to_string(), "crash/svc".to_string()]
}

/// what the survivor holds while the victim runs (join scenarios)
#[allow(dead_code)]
enum Survivor {
    None,
    PubSub { node: Node<S>, svc: iceoryx2::service::port_factory::publish_subscribe::PortFactory<S, Msg, ()>, publisher: Option<iceoryx2::port::publisher::Publisher<S, Msg, ()>>, subscriber: Option<iceoryx2::port::subscriber::Subscriber<S, Msg, ()>> },
    Event { node: Node<S>, svc: iceoryx2::service::port_factory::event::PortFactory<S>, notifier: Option<iceoryx2::port::notifier::Notifier<S>>, listener: Option<iceoryx2::port::listener::Listener<S>> },
    ReqRes { node: Node<S>, svc: iceoryx2::service::port_factory::request_response::PortFactory<S, Msg, (), Msg, ()>, client: Option<iceoryx2::port::client::Client<S, Msg, (), Msg, ()>>, server: Option<iceoryx2::port::server::Server<S, Msg, (), Msg, ()>> },
    Blackboard { node: Node<S>, svc: iceoryx2::service::port_factory::blackboard::PortFactory<S, u64>, writer: Option<iceoryx2::port::writer::Writer<S, u64>>, reader: Option<iceoryx2::port::reader::Reader<S, u64>> },
}

fn sname() -> ServiceName {
    "crash/svc".try_into().unwrap()
}

fn setup_survivor(d: &Domain, scenario: &str) -> Result<Survivor, Failure> {
    let h = |e: String| Failure::new("harness.survivor_setup", e);
    if !JOIN.contains(&scenario) {
        return Ok(Survivor::None);
    }
    let node = NodeBuilder::new().config(&d.config).create::<S>().map_err(|e| h(format!("{e:?}")))?;
    match scenario {
        "join_pub" | "join_sub" => {
            let svc = node.service_builder(&sname()).publish_subscribe::<Msg>().history_size(2).subscriber_max_buffer_size(4).max_publishers(2).max_subscribers(2).create().map_err(|e| h(format!("{e:?}")))?;
            if scenario == "join_pub" {
                let subscriber = svc.subscriber_builder().create().map_err(|e| h(format!("{e:?}")))?;
                Ok(Survivor::PubSub { node, svc, publisher: None, subscriber: Some(subscriber) })
            } else {
                let publisher = svc.publisher_builder().create().map_err(|e| h(format!("{e:?}")))?;
                publisher.send_copy(Msg::new(501)).map_err(|e| h(format!("{e:?}")))?;
                publisher.send_copy(Msg::new(502)).map_err(|e| h(format!("{e:?}")))?;
                Ok(Survivor::PubSub { node, svc, publisher: Some(publisher), subscriber: None })
            }
        }
        "join_notifier" | "join_listener" => {
            let svc = node.service_builder(&sname()).event().max_notifiers(2).max_listeners(2).create().map_err(|e| h(format!("{e:?}")))?;
            if scenario == "join_notifier" {
                let listener = svc.listener_builder().create().map_err(|e| h(format!("{e:?}")))?;
                Ok(Survivor::Event { node, svc, notifier: None, listener: Some(listener) })
            } else {
                let notifier = svc.notifier_builder().create().map_err(|e| h(format!("{e:?}")))?;
                Ok(Survivor::Event { node, svc, notifier: Some(notifier), listener: None })
            }
        }
        "join_client" | "join_server" => {
            let svc = node.service_builder(&sname()).request_response::<Msg, Msg>().max_clients(2).max_servers(2).create().map_err(|e| h(format!("{e:?}")))?;
            if scenario == "join_client" {
                let server = svc.server_builder().create().map_err(|e| h(format!("{e:?}")))?;
                Ok(Survivor::ReqRes { node, svc, client: None, server: Some(server) })
            } else {
                let client = svc.client_builder().create().map_err(|e| h(format!("{e:?}")))?;
                Ok(Survivor::ReqRes { node, svc, client: Some(client), server: None })
            }
        }
        _ => {
            let svc = node.service_builder(&sname()).blackboard_creator::<u64>().add::<u64>(1, 10).add::<u64>(2, 20).max_readers(2).create().map_err(|e| h(format!("{e:?}")))?;
            if scenario == "join_reader" {
                let writer = svc.writer_builder().create().map_err(|e| h(format!("{e:?}")))?;
                Ok(Survivor::Blackboard { node, svc, writer: Some(writer), reader: None })
            } else {
                let reader = svc.reader_builder().create().map_err(|e| h(format!("{e:?}")))?;
                Ok(Survivor::Blackboard { node, svc, writer: None, reader: Some(reader) })
            }
        }
    }
}

/// orderly shutdown of the survivor in reverse creation order (ports, service, node); other
/// orders are C17's subject
fn drop_survivor(s: Survivor) {
    match s {
        Survivor::None => {}
        Survivor::PubSub { node, svc, publisher, subscriber } => {
            drop(subscriber);
            drop(publisher);
            drop(svc);
            drop(node);
        }
        Survivor::Event { node, svc, notifier, listener } => {
            drop(listener);
            drop(notifier);
            drop(svc);
            drop(node);
        }
        Survivor::ReqRes { node, svc, client, server } => {
            drop(server);
            drop(client);
            drop(svc);
            drop(node);
        }
        Survivor::Blackboard { node, svc, writer, reader } => {
            drop(reader);
            drop(writer);
            drop(svc);
            drop(node);
        }
    }
}

fn survivor_node_id(s: &Survivor) -> Option<u128> {
    match s {
        Survivor::None => None,
        Survivor::PubSub { node, .. } | Survivor::Event { node, .. } | Survivor::ReqRes { node, .. } | Survivor::Blackboard { node, .. } => Some(node.id().value()),
    }
}

#[derive(Default, Debug)]
struct Listing {
    alive: Vec<u128>,
    dead: Vec<u128>,
    other: Vec<String>,
}

fn list_nodes(d: &Domain) -> Result<(Listing, Vec<iceoryx2::node::DeadNodeView<S>>), Failure> {
    let mut l = Listing::default();
    let mut views = vec![];
    let r = Node::<S>::list(&d.config, |st| {
        match st {
            NodeState::Alive(v) => l.alive.push(v.id().value()),
            NodeState::Dead(v) => {
                l.dead.push(v.id().value());
                views.push(v);
            }
            NodeState::Inaccessible(id) => l.other.push(format!("Inaccessible({})", id.value())),
            NodeState::Undefined(id) => l.other.push(format!("Undefined({})", id.value())),
        }
        CallbackProgression::Continue
    });
    if let Err(e) = r {
        fail!("survivor.node_list_error", "Node::list failed after the crash: {e:?}");
    }
    Ok((l, views))
}

/// survivor keeps working with a fresh peer of the victim's kind
fn survivor_probe(s: &Survivor, scenario: &str) -> Result<(), Failure> {
    match s {
        Survivor::None => Ok(()),
        Survivor::PubSub { svc, publisher, subscriber, .. } => {
            if let Some(sub) = subscriber {
                // whatever the dead publisher delivered must be intact and in order
                let mut last = 0;
                loop {
                    match sub.receive() {
                        Ok(Some(m)) => {
                            ensure!(m.ok(), "survivor.corrupt_data", "sample from the dead publisher is corrupted: {:?}", *m);
                            ensure!(m.tag > last && (1001..=1003).contains(&m.tag), "survivor.corrupt_data", "unexpected tag {} after {}", m.tag, last);
                            last = m.tag;
                        }
                        Ok(None) => break,
                        Err(e) => fail!("survivor.receive_error", "receive failed after the crash: {e:?}"),
                    }
                }
                let p = svc.publisher_builder().create().map_err(|e| Failure::new("survivor.new_peer", format!("cannot create a new publisher on the shared service: {e:?}")))?;
                let n = p.send_copy(Msg::new(7001)).map_err(|e| Failure::new("survivor.new_peer", format!("send failed: {e:?}")))?;
                ensure!(n == 1, "survivor.new_peer", "new publisher reached {n} subscribers, expected 1");
                let got = sub.receive().map_err(|e| Failure::new("survivor.new_peer", format!("{e:?}")))?;
                ensure!(got.map(|m| m.tag) == Some(7001), "survivor.new_peer", "survivor subscriber did not get the new publisher's sample");
            }
            if let Some(p) = publisher {
                let sub = svc.subscriber_builder().create().map_err(|e| Failure::new("survivor.new_peer", format!("cannot create a new subscriber on the shared service: {e:?}")))?;
                p.send_copy(Msg::new(7002)).map_err(|e| Failure::new("survivor.send_error", format!("survivor publisher cannot send after the crash: {e:?}")))?;
                let mut seen = false;
                while let Some(m) = sub.receive().map_err(|e| Failure::new("survivor.new_peer", format!("{e:?}")))? {
                    ensure!(m.ok(), "survivor.corrupt_data", "corrupt sample");
                    seen |= m.tag == 7002;
                }
                ensure!(seen, "survivor.new_peer", "new subscriber did not get the survivor's sample");
            }
            let _ = scenario;
            Ok(())
        }
        Survivor::Event { svc, notifier, listener, .. } => {
            if let Some(l) = listener {
                let mut ids = vec![];
                l.try_wait(|id| ids.push(id.id.as_value())).map_err(|e| Failure::new("survivor.receive_error", format!("{e:?}")))?;
                let n = svc.notifier_builder().create().map_err(|e| Failure::new("survivor.new_peer", format!("cannot create a new notifier: {e:?}")))?;
                n.notify_with_custom_event_id(EventId::new(9)).map_err(|e| Failure::new("survivor.new_peer", format!("notify failed: {e:?}")))?;
                let mut got = vec![];
                l.try_wait(|id| got.push(id.id.as_value())).map_err(|e| Failure::new("survivor.new_peer", format!("{e:?}")))?;
                ensure!(got.contains(&9), "survivor.new_peer", "survivor listener did not get the new notifier's event, got {got:?}");
            }
            if let Some(n) = notifier {
                let l = svc.listener_builder().create().map_err(|e| Failure::new("survivor.new_peer", format!("cannot create a new listener: {e:?}")))?;
                n.notify_with_custom_event_id(EventId::new(8)).map_err(|e| Failure::new("survivor.send_error", format!("survivor notifier cannot notify after the crash: {e:?}")))?;
                let mut got = vec![];
                l.try_wait(|id| got.push(id.id.as_value())).map_err(|e| Failure::new("survivor.new_peer", format!("{e:?}")))?;
                ensure!(got.contains(&8), "survivor.new_peer", "new listener did not get the survivor's event, got {got:?}");
            }
            Ok(())
        }
        Survivor::ReqRes { svc, client, server, .. } => {
            if let Some(srv) = server {
                loop {
                    match srv.receive() {
                        Ok(Some(ar)) => {
                            ensure!(ar.payload().ok(), "survivor.corrupt_data", "request from the dead client is corrupted");
                            let _ = ar.send_copy(Msg::new(1));
                        }
                        Ok(None) => break,
                        Err(e) => fail!("survivor.receive_error", "server receive failed after the crash: {e:?}"),
                    }
                }
                let c = svc.client_builder().create().map_err(|e| Failure::new("survivor.new_peer", format!("cannot create a new client: {e:?}")))?;
                let pending = c.send_copy(Msg::new(7003)).map_err(|e| Failure::new("survivor.new_peer", format!("send request failed: {e:?}")))?;
                let ar = srv.receive().map_err(|e| Failure::new("survivor.new_peer", format!("{e:?}")))?;
                let Some(ar) = ar else { fail!("survivor.new_peer", "survivor server did not get the new client's request") };
                ensure!(ar.payload().tag == 7003, "survivor.new_peer", "wrong request");
                ar.send_copy(Msg::new(7004)).map_err(|e| Failure::new("survivor.new_peer", format!("send response failed: {e:?}")))?;
                let r = pending.receive().map_err(|e| Failure::new("survivor.new_peer", format!("{e:?}")))?;
                ensure!(r.map(|m| m.tag) == Some(7004), "survivor.new_peer", "new client did not get the response");
            }
            if let Some(c) = client {
                let srv = svc.server_builder().create().map_err(|e| Failure::new("survivor.new_peer", format!("cannot create a new server: {e:?}")))?;
                let pending = c.send_copy(Msg::new(7005)).map_err(|e| Failure::new("survivor.send_error", format!("survivor client cannot send after the crash: {e:?}")))?;
                let ar = srv.receive().map_err(|e| Failure::new("survivor.new_peer", format!("{e:?}")))?;
                let Some(ar) = ar else { fail!("survivor.new_peer", "new server did not get the survivor's request") };
                ar.send_copy(Msg::new(7006)).map_err(|e| Failure::new("survivor.new_peer", format!("{e:?}")))?;
                let r = pending.receive().map_err(|e| Failure::new("survivor.new_peer", format!("{e:?}")))?;
                ensure!(r.map(|m| m.tag) == Some(7006), "survivor.new_peer", "survivor client did not get the response");
            }
            Ok(())
        }
        Survivor::Blackboard { svc, writer, reader, .. } => {
            if let Some(w) = writer {
                let r = svc.reader_builder().create().map_err(|e| Failure::new("survivor.new_peer", format!("cannot create a new reader: {e:?}")))?;
                let hm = w.entry::<u64>(&1).map_err(|e| Failure::new("survivor.new_peer", format!("{e:?}")))?;
                hm.update_with_copy(77);
                let h = r.entry::<u64>(&1).map_err(|e| Failure::new("survivor.new_peer", format!("{e:?}")))?;
                ensure!(*h.get() == 77, "survivor.new_peer", "new reader sees {} instead of 77", *h.get());
            }
            if let Some(r) = reader {
                let h = r.entry::<u64>(&1).map_err(|e| Failure::new("survivor.new_peer", format!("{e:?}")))?;
                let v = *h.get();
                ensure!(v == 10 || (4001..=4003).contains(&v), "survivor.corrupt_data", "blackboard value {v} was never written");
                drop(h);
                let w = svc.writer_builder().create().map_err(|e| Failure::new("survivor.new_peer", format!("cannot create a new writer after the old one died: {e:?}")))?;
                let hm = w.entry::<u64>(&1).map_err(|e| {
                    if format!("{e:?}").contains("HandleAlreadyExists") {
                        Failure::new(
                            "blackboard.entry_handle_stays_acquired_after_writer_death",
                            "the writer of the dead node held the write handle of key 1 when it died; the dead-node cleanup removes the writer port but does not release the handle flag in shared memory, so the new writer of the survivor gets HandleAlreadyExists for ever",
                        )
                    } else {
                        Failure::new("survivor.new_peer", format!("{e:?}"))
                    }
                })?;
                hm.update_with_copy(78);
                let h = r.entry::<u64>(&1).map_err(|e| Failure::new("survivor.new_peer", format!("{e:?}")))?;
                ensure!(*h.get() == 78, "survivor.new_peer", "survivor reader sees {} instead of 78", *h.get());
            }
            Ok(())
        }
    }
}

/// after everything is gone the name must be creatable with different settings
fn recreate_with_other_settings(d: &Domain, scenario: &str) -> Result<(), Failure> {
    let node = NodeBuilder::new().config(&d.config).create::<S>().map_err(|e| {
        use std::os::unix::fs::PermissionsExt;
        let broken_global = vcore::util::shm_entries_containing(&d.prefix).iter().filter(|n| n.ends_with("global_mgmt")).any(|n| {
            std::fs::metadata(format!("/dev/shm/{n}")).map(|m| m.len() == 0 || m.permissions().mode() & 0o400 == 0).unwrap_or(false)
        });
        if broken_global {
            Failure::new("domain.global_mgmt_segment_left_half_created_by_dead_creator", format!("no node can be created in the domain any more ({e:?}): the domain-wide management segment was left half-created (zero-sized or still write-only) by a process that died while creating it, and nobody repairs or removes it"))
        } else {
            Failure::new("after.node_create", format!("cannot create a node after the cleanup: {e:?}"))
        }
    })?;
    let r = match scenario {
        s if s.contains("pub") || s.contains("sub") || s == "node_only" => node.service_builder(&sname()).publish_subscribe::<u64>().max_publishers(5).create().map(|_| ()).map_err(|e| format!("{e:?}")),
        s if s.contains("event") || s.contains("notifier") || s.contains("listener") => node.service_builder(&sname()).event().max_listeners(7).create().map(|_| ()).map_err(|e| format!("{e:?}")),
        s if s.contains("reqres") || s.contains("client") || s.contains("server") => node.service_builder(&sname()).request_response::<u64, u64>().max_clients(5).create().map(|_| ()).map_err(|e| format!("{e:?}")),
        _ => node.service_builder(&sname()).blackboard_creator::<u64>().add::<u8>(9, 1).create().map(|_| ()).map_err(|e| format!("{e:?}")),
    };
    r.map_err(|e| Failure::new("after.recreate_service", format!("the service name cannot be created afresh with different settings: {e}")))
}

/// classification of leftovers for the known finding "node died before its monitoring token existed"
fn only_unlisted_node_remnants(left: &[String]) -> bool {
    !left.is_empty() && left.iter().all(|l| l.starts_with("nodes/") && (l.ends_with("node.details") || l.ends_with(".node_monitor_context") || l.matches('/').count() == 1))
}

thread_local! {
    static REFS: std::cell::RefCell<BTreeMap<String, Vec<vtrace::Step>>> = const { std::cell::RefCell::new(BTreeMap::new()) };
}

/// phase of the reference run in which system-call crash point `n` of `scenario` lies
fn phase_of(scenario: &str, n: u64) -> String {
    REFS.with(|r| {
        let mut r = r.borrow_mut();
        if !r.contains_key(scenario) {
            r.insert(scenario.to_string(), reference_steps(scenario).unwrap_or_default());
        }
        r[scenario].get(n as usize).map(|s| s.phase.clone()).unwrap_or_else(|| "end".into())
    })
}

fn run_case(c: &CrashCase, obs: &mut Obs) -> Result<(), Failure> {
    let phase = if c.kind == "syscall" { phase_of(&c.scenario, c.n) } else { String::new() };
    let mut d = Domain::new();
    d.config.global.creation_timeout = core::time::Duration::from_millis(100);
    let r = run_case_in(&d, c, &phase, obs);
    d.cleanup();
    r
}

fn run_case_in(d: &Domain, c: &CrashCase, phase: &str, obs: &mut Obs) -> Result<(), Failure> {
    let survivor = setup_survivor(d, &c.scenario)?;
    let args = child_args(d, &c.scenario);
    // ---- crash the victim ----
    let died_inside = match c.kind.as_str() {
        "syscall" => match vtrace::run_to_step(&exe(), &args, &[], c.n as usize).map_err(|e| Failure::new("harness.trace", e))? {
            Some(mut t) => {
                t.kill();
                true
            }
            None => false,
        },
        _ => {
            let (killed, _) = vice::vcrash::run_atomic(&args, Some(c.n)).map_err(|e| Failure::new("harness.child", e))?;
            killed
        }
    };
    // atomic-write crash mode: the child left the name of the phase it died in
    let phase_file = d.root.join(".vphase");
    let atomic_phase = std::fs::read_to_string(&phase_file).unwrap_or_default();
    let _ = std::fs::remove_file(&phase_file);
    let phase: &str = if c.kind == "atomic" { &atomic_phase } else { phase };
    if !died_inside {
        obs.class("victim_ran_to_completion");
    }
    let left_after_kill = d.leftovers();
    // ---- survivor oracle ----
    let own = survivor_node_id(&survivor);
    let (l, views) = list_nodes(d)?;
    for a in &l.alive {
        ensure!(Some(*a) == own, "survivor.dead_node_reported_alive", "node {a} is reported alive but its process is gone (own node {own:?})");
    }
    ensure!(l.other.is_empty(), "survivor.node_state_undefined", "Node::list reports {:?} for the dead node", l.other);
    // optional second crash: a cleaner process dies during the cleanup
    if let Some(m) = c.cleaner_n {
        let cargs = child_args(d, "cleaner");
        if let Some(mut t) = vtrace::run_to_step(&exe(), &cargs, &[], m as usize).map_err(|e| Failure::new("harness.trace", e))? {
            t.kill();
            obs.class("cleaner_killed");
        } else {
            obs.class("cleaner_ran_to_completion");
        }
    }
    let (_, views) = if c.cleaner_n.is_some() { list_nodes(d)? } else { (l, views) };
    let mut cleaned = 0;
    for v in views {
        let id = v.id().value();
        let r = if c.cleaner_n.is_some() { v.blocking_remove_stale_resources(core::time::Duration::from_secs(2)) } else { v.try_remove_stale_resources() };
        match r {
            Ok(()) | Err(NodeCleanupFailure::ResourcesAlreadyCleanedUp) => cleaned += 1,
            Err(e) => {
                let dir = d.root.join("nodes").join(format!("{id}"));
                let files: Vec<String> = std::fs::read_dir(&dir)
                    .map(|rd| {
                        rd.flatten()
                            .map(|e| {
                                use std::os::unix::fs::PermissionsExt;
                                let mode = e.metadata().map(|m| m.permissions().mode() & 0o777).unwrap_or(0);
                                format!("{} (mode {:o}, {} bytes)", e.file_name().to_string_lossy(), mode, e.metadata().map(|m| m.len()).unwrap_or(0))
                            })
                            .collect()
                    })
                    .unwrap_or_default();
                let locked_tag = files.iter().any(|f| (f.contains(".service_tag") || f.contains(".port_tag")) && f.contains("mode 600"));
                if locked_tag {
                    fail!("cleanup.blocked_by_half_created_tag_of_dead_node", "removing the stale resources of dead node {id} failed: {e:?}; its directory still holds a tag file in creation (locked) state that the cleanup does not see: {files:?}");
                }
                fail!("survivor.cleanup_failed", "removing the stale resources of dead node {id} failed: {e:?}; node directory: {files:?}")
            }
        }
    }
    if cleaned > 0 {
        obs.class("dead_node_cleaned");
    }
    let (l2, _) = list_nodes(d)?;
    if !l2.dead.is_empty() && l2.other.is_empty() && l2.dead.iter().all(|id| !d.root.join("nodes").join(format!("{id}")).join(format!("{}node.details", d.prefix)).exists()) {
        fail!(
            "cleanup.uses_global_config_when_node_details_are_gone",
            "the victim died during its own node destruction (phase {phase}) after its node.details were removed: the dead-node cleanup then falls back to Config::global_config() instead of the domain's config, finds nothing ('already cleaned up') and the node stays listed as dead for ever: {:?}",
            l2.dead
        );
    }
    ensure!(l2.dead.is_empty() && l2.other.is_empty(), "survivor.dead_node_remains", "after the cleanup Node::list still reports dead {:?} other {:?}", l2.dead, l2.other);
    for a in &l2.alive {
        ensure!(Some(*a) == own, "survivor.dead_node_reported_alive", "node {a} reported alive after cleanup");
    }
    survivor_probe(&survivor, &c.scenario)?;
    drop_survivor(survivor);
    // ---- nothing of the dead node remains ----
    let left = d.leftovers();
    if !left.is_empty() {
        let modes: Vec<String> = left
            .iter()
            .filter(|l| l.starts_with("/dev/shm/"))
            .map(|l| {
                use std::os::unix::fs::PermissionsExt;
                std::fs::metadata(l).map(|m| format!("{:o}/{}B", m.permissions().mode() & 0o777, m.len())).unwrap_or_default()
            })
            .collect();
        // double crash: a cleaner that was killed inside the removal of the dead node's monitoring token
        // (state file already unlinked, owner-lock and / or context file not yet) leaves those two files
        // behind; without the state file no listing finds them again. That is a finding of its own and
        // independent of whatever else stays: it is split off before the rest is classified.
        let is_cleaner_remnant = |l: &String| l.starts_with("nodes/") && l.matches('/').count() == 1 && (l.ends_with(".node_monitor_context") || l.ends_with(".node_monitor_owner_lock"));
        let cleaner_remnants: Vec<String> = if c.cleaner_n.is_some() && !left.iter().any(|l| l.ends_with(".node_monitor")) { left.iter().filter(|l| is_cleaner_remnant(l)).cloned().collect() } else { vec![] };
        let left: Vec<String> = left.into_iter().filter(|l| !cleaner_remnants.contains(l)).collect();
        if left.is_empty() {
            fail!(SIG_CLEANER_DIED_IN_TOKEN_REMOVAL, "the cleaner was killed at its step {:?} while removing the dead node's monitoring token; the files it had not yet unlinked stay for ever (no state file, so no listing finds the node again): {cleaner_remnants:?}", c.cleaner_n);
        }
        let left: Vec<String> = left.into_iter().chain(std::iter::once(format!("(phase {phase}; shm modes {modes:?}; split off: {cleaner_remnants:?})"))).collect();
        let left = &left[..];
        let left_files = &left[..left.len() - 1];
        if only_unlisted_node_remnants(left_files) {
            fail!("leftover.node_died_before_monitor_token", "node directory/details/monitor context of a node that died before its monitoring token existed stay behind: {left:?}");
        }
        {
            use std::os::unix::fs::PermissionsExt;
            let half_created = |l: &String| l.starts_with("/dev/shm/") && std::fs::metadata(l).map(|m| m.permissions().mode() & 0o400 == 0).unwrap_or(false);
            if (phase == "port_create" || phase == "messages") && left_files.iter().all(half_created) {
                fail!("leftover.half_created_dynamic_storage_of_dead_port", "the victim died while one of its ports was creating a shared-memory object (still in its write-only initialisation state); the dead-node cleanup cannot open it and leaves it behind: {left:?}");
            }
        }
        if phase == "service_drop" && left_files.iter().any(|l| l.ends_with(".service")) && left_files.iter().all(|l| l.starts_with("services/") || l.starts_with("/dev/shm/")) {
            fail!("leftover.service_orphaned_by_crash_after_service_tag_removal", "the victim died while dropping the last handle of a service: it removes its service tag first and the service's resources afterwards, so the dead-node cleanup (which walks the tags) no longer knows about the service and its resources stay for ever: {left:?}");
        }
        if left_files.len() == 1 && left_files[0].starts_with("services/") && left_files[0].ends_with(".service") && c.kind == "syscall" {
            // which phase did the victim die in? (the reference run of this scenario tells)
            fail!("leftover.service_static_config_locked_by_dead_creator", "the static config of a service whose creator died before unlocking it stays behind in locked state; the dead-node cleanup treats it as a non-existing service and removes only the service tag: {left:?}");
        }
        {
            // generic classification: (phase the victim died in, kinds of resources that stay)
            let mut kinds: Vec<String> = left_files
                .iter()
                .map(|l| {
                    let name = l.rsplit('/').next().unwrap_or(l);
                    match name.rsplit_once('.') {
                        Some((_, ext)) if !ext.chars().all(|c| c.is_ascii_digit()) => ext.to_string(),
                        _ => {
                            if l.starts_with("nodes/") {
                                "node_dir".to_string()
                            } else {
                                "other".to_string()
                            }
                        }
                    }
                })
                .collect();
            kinds.sort();
            kinds.dedup();
            if !phase.is_empty() {
                fail!(format!("leftover.{}.{}", phase, kinds.join("+")), "resources remain after the dead node was cleaned up and the survivor dropped everything: {left:?}");
            }
        }
        fail!("leftover.after_cleanup", "resources remain after the dead node was cleaned up and the survivor dropped everything: {left:?}");
    }
    recreate_with_other_settings(d, &c.scenario)?;
    let left = d.leftovers();
    ensure!(left.is_empty(), "leftover.after_recreate", "resources remain after re-creation test: {left:?}");
    obs.nontrivial = died_inside && !left_after_kill.is_empty();
    if c.cleaner_n.is_some() {
        obs.class("double_crash");
    }
    Ok(())
}

fn reference_steps(scenario: &str) -> Result<Vec<vtrace::Step>, String> {
    let mut d = Domain::new();
    d.config.global.creation_timeout = core::time::Duration::from_millis(100);
    let survivor = setup_survivor(&d, scenario).map_err(|e| e.message)?;
    let r = vtrace::reference_run(&exe(), &child_args(&d, scenario), &[]);
    drop_survivor(survivor);
    d.cleanup();
    r
}

fn atomic_count(scenario: &str) -> Result<u64, String> {
    let mut d = Domain::new();
    d.config.global.creation_timeout = core::time::Duration::from_millis(100);
    let survivor = setup_survivor(&d, scenario).map_err(|e| e.message)?;
    let r = vice::vcrash::run_atomic(&child_args(&d, scenario), None).map(|(_, n)| n);
    drop_survivor(survivor);
    d.cleanup();
    r
}

const SIG_CLEANER_DIED_IN_TOKEN_REMOVAL: &str = "leftover.cleaner_died_while_removing_monitor_token";

fn exec(ctx: &mut Ctx, part: &str, c: &CrashCase) {
    let (mut obs, mut r) = Ctx::forked(std::time::Duration::from_secs(90), "survivor.hang", |obs| run_case(c, obs));
    if matches!(&r, Err(f) if f.signature.starts_with("survivor.hang")) {
        // a genuine hang is deterministic: it must show again, otherwise it was the machine
        let (obs2, r2) = Ctx::forked(std::time::Duration::from_secs(180), "survivor.hang", |obs| run_case(c, obs));
        if !matches!(&r2, Err(f) if f.signature.starts_with("survivor.hang")) {
            ctx.class("hang_not_reproduced", 1);
            obs = obs2;
            r = r2;
        }
    }
    ctx.record(part, vcore::rng::hash_str(&format!("{c:?}")), &obs, || serde_json::to_value(c).unwrap());
    if let Err(f) = r {
        if f.signature == "harness.slow" {
            // counted as a discarded case (more than 1 % of them make the run inconclusive)
            ctx.class("case_discarded_slow_machine", 1);
            ctx.count_discarded();
            return;
        }
        if f.signature.starts_with("harness.") {
            // a tracing hiccup decides nothing about the property: the case is discarded and counted
            // (more than 1 % discarded cases make the run inconclusive)
            ctx.class("case_discarded_harness_problem", 1);
            ctx.note(format!("discarded: {}: {} (first such case: {})", f.signature, f.message, serde_json::to_string(c).unwrap_or_default()));
            ctx.count_discarded();
            return;
        }
        ctx.violation(part, &f, serde_json::to_value(c).unwrap());
    }
}

fn body(ctx: &mut Ctx) {
    vice::silence_iceoryx_log();
    ctx.pin_to_one_cpu();
    vice::domain::sweep_dead_domains();
    for part in ["syscall", "atomic", "double"] {
        if let Some(c) = ctx.replay_case::<CrashCase>(part) {
            exec(ctx, part, &c);
            return;
        }
    }
    if ctx.replay.is_some() {
        return;
    }
    let mut scenarios: Vec<&str> = SOLO.iter().chain(JOIN.iter()).cloned().collect();
    if let Ok(f) = std::env::var("C04_SCENARIOS") {
        // debugging aid only (evidence is not written for --part runs)
        scenarios.retain(|s| f.split(',').any(|x| x == *s));
    }
    // reference runs (every worker takes them itself: they are deterministic)
    let mut steps: BTreeMap<&str, usize> = BTreeMap::new();
    for s in &scenarios {
        match reference_steps(s) {
            Ok(v) => {
                steps.insert(s, v.len());
            }
            Err(e) => {
                ctx.inconclusive(format!("reference run of {s} failed: {e}"));
                return;
            }
        }
    }
    // ---- every system-call crash point of every scenario ----
    if ctx.part_enabled("syscall") {
        let stride = ctx.scale(1, 1);
        let mut i = 0u64;
        for s in &scenarios {
            let n = steps[s];
            // index n = "after the last call"
            for k in (0..=n).step_by(stride) {
                i += 1;
                if !ctx.mine(i) {
                    continue;
                }
                exec(ctx, "syscall", &CrashCase { scenario: s.to_string(), kind: "syscall".into(), n: k as u64, cleaner_n: None });
            }
        }
        ctx.mark_exhaustive("syscall: every state-changing system call of every lifecycle scenario (13 scenarios) as crash point");
    }
    // ---- shared-memory atomic writes ----
    if ctx.part_enabled("atomic") {
        let stride = ctx.scale(3, 1);
        let mut i = 0u64;
        for s in &scenarios {
            let n = match atomic_count(s) {
                Ok(n) => n,
                Err(e) => {
                    ctx.inconclusive(format!("atomic count of {s} failed: {e}"));
                    continue;
                }
            };
            let off = (ctx.seed % stride as u64) as usize;
            for k in (1 + off as u64..=n).step_by(stride) {
                i += 1;
                if !ctx.mine(i) {
                    continue;
                }
                exec(ctx, "atomic", &CrashCase { scenario: s.to_string(), kind: "atomic".into(), n: k, cleaner_n: None });
            }
        }
        if stride == 1 {
            ctx.mark_exhaustive("atomic: every shared-memory atomic write of every lifecycle scenario as crash point");
        }
    }
    // ---- second crash during cleanup ----
    if ctx.part_enabled("double") {
        let total = ctx.scale(160u64, 3000);
        let mut rng = ctx.rng("double");
        for _ in 0..ctx.share(total) {
            let s = *rng.pick(&scenarios);
            let n = rng.below(steps[s] as u64 + 1);
            let m = rng.below(90);
            exec(ctx, "double", &CrashCase { scenario: s.to_string(), kind: "syscall".into(), n, cleaner_n: Some(m) });
        }
    }
}

fn main() {
    vcore::main(SPEC, body);
}
