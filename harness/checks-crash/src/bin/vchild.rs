//! Scenario process that gets killed / stopped by the crash engine (C04, C07, C19).
//!
//!   vchild <root> <prefix> <scenario> [service-name]
//!
//! Phase boundaries are announced with a harmless marker system call
//! `write(-1, "VERIF_PHASE:<name>")` (fails with EBADF) that the tracer recognises.
extern crate iceoryx2_bb_loggers;

use vice::domain::Domain;
use iceoryx2::node::{NodeState, NodeView};
use iceoryx2::prelude::*;

static PHASE_FILE: std::sync::OnceLock<std::path::PathBuf> = std::sync::OnceLock::new();

fn phase(name: &str) {
    // atomic-write crash mode: leave the name of the current phase where the harness finds it
    // (not in system-call crash mode: the extra calls would shift the crash indices)
    if let Some(p) = PHASE_FILE.get() {
        let _ = std::fs::write(p, name);
    }
    let s = format!("VERIF_PHASE:{name}");
    unsafe { libc::write(-1, s.as_ptr() as *const libc::c_void, s.len()) };
}

use vice::msg::Msg;

type S = ipc::Service;

fn die(msg: String) -> ! {
    eprintln!("vchild: {msg}");
    std::process::exit(3);
}

macro_rules! must {
    ($e:expr, $what:expr) => {
        match $e {
            Ok(v) => v,
            Err(e) => die(format!("{} failed: {:?}", $what, e)),
        }
    };
}

fn main() {
    iceoryx2_log::set_log_level(iceoryx2_log::LogLevel::Fatal);
    let a: Vec<String> = std::env::args().collect();
    if a.len() < 4 {
        die("usage: vchild <root> <prefix> <scenario> [service]".into());
    }
    let mut dom = Domain::at(&a[2], std::path::Path::new(&a[1]));
    // every wait of the code under test for "somebody else finishes creating this" is bounded by
    // this value; nothing in the crash checks needs it to be long, and a long value multiplies the
    // cost of every case in which a survivor meets a half-created resource
    dom.config.global.creation_timeout = core::time::Duration::from_millis(100);
    let scenario = a[3].as_str();
    let sname: ServiceName = must!(a.get(4).filter(|s| !s.contains('.') && !s.starts_with('/')).map(|s| s.as_str()).unwrap_or("victim/service").try_into(), "service name");
    // VERIF_CHILD_ATOMIC_KILL=<n>: die at the n-th shared-memory atomic write (counted from BEGIN)
    if std::env::var_os("VERIF_CHILD_ATOMIC_KILL").is_some() {
        let _ = PHASE_FILE.set(std::path::Path::new(&a[1]).join(".vphase"));
    }
    atomic_kill::install();

    let extra = a.get(4).cloned().unwrap_or_default();
    if scenario == "cleaner" {
        // a process that removes the stale resources of every dead node of the domain; with an
        // output file (5th argument) it appends one line per attempt: "<node id> <result>"
        phase("begin");
        phase("cleanup");
        let mut dead = vec![];
        must!(
            Node::<S>::list(&dom.config, |st| {
                if let NodeState::Dead(v) = st {
                    dead.push(v);
                }
                CallbackProgression::Continue
            }),
            "node list"
        );
        let mut out = String::new();
        for v in dead {
            let id = v.id().value();
            let r = v.try_remove_stale_resources();
            out.push_str(&format!("{id} {r:?}\n"));
        }
        phase("end");
        if !extra.is_empty() {
            let _ = std::fs::write(&extra, out);
        }
        return;
    }
    if scenario == "lister" {
        // an observer: lists the nodes of the domain and writes "<verdict> <node id>" lines
        phase("begin");
        phase("list");
        let mut out = String::new();
        let r = Node::<S>::list(&dom.config, |st| {
            match st {
                NodeState::Alive(v) => out.push_str(&format!("Alive {}\n", v.id().value())),
                NodeState::Dead(v) => out.push_str(&format!("Dead {}\n", v.id().value())),
                NodeState::Inaccessible(id) => out.push_str(&format!("Inaccessible {}\n", id.value())),
                NodeState::Undefined(id) => out.push_str(&format!("Undefined {}\n", id.value())),
            }
            CallbackProgression::Continue
        });
        if let Err(e) = r {
            out.push_str(&format!("Error {e:?}\n"));
        }
        phase("end");
        let _ = std::fs::write(&extra, out);
        return;
    }
    if scenario == "guard_only" {
        // bb-posix level: create a ProcessGuard on the given state file, hold it, drop it
        use iceoryx2_bb_posix::process_state::ProcessGuardBuilder;
        use iceoryx2_bb_system_types::file_path::FilePath;
        use iceoryx2_bb_container::semantic_string::SemanticString;
        let path = must!(FilePath::new(extra.as_bytes()), "state file path");
        phase("begin");
        phase("guard_create");
        let g = must!(ProcessGuardBuilder::new().create(&path), "guard create");
        phase("guard_hold");
        let _ = unsafe { libc::close(-1) }; // one boundary while the guard is held
        phase("guard_drop");
        drop(g);
        phase("end");
        return;
    }
    phase("begin");
    phase("node_create");
    let node = must!(NodeBuilder::new().config(&dom.config).create::<S>(), "node create");
    match scenario {
        "node_only" => {}
        "solo_pubsub" => {
            phase("service_create");
            let svc = must!(
                node.service_builder(&sname).publish_subscribe::<Msg>().history_size(2).subscriber_max_buffer_size(4).create(),
                "service create"
            );
            phase("port_create");
            let p = must!(svc.publisher_builder().create(), "publisher");
            let s = must!(svc.subscriber_builder().create(), "subscriber");
            phase("messages");
            for i in 1..=3u64 {
                must!(p.send_copy(Msg::new(i)), "send");
                let smp = must!(s.receive(), "receive");
                if let Some(m) = smp {
                    if !m.ok() {
                        die("corrupt sample".into());
                    }
                }
            }
            phase("port_drop");
            drop(s);
            drop(p);
            phase("service_drop");
            drop(svc);
        }
        "solo_event" => {
            phase("service_create");
            let svc = must!(node.service_builder(&sname).event().create(), "service create");
            phase("port_create");
            let n = must!(svc.notifier_builder().create(), "notifier");
            let l = must!(svc.listener_builder().create(), "listener");
            phase("messages");
            for i in 1..=3usize {
                must!(n.notify_with_custom_event_id(EventId::new(i)), "notify");
                must!(l.try_wait(|_| {}), "try_wait");
            }
            phase("port_drop");
            drop(l);
            drop(n);
            phase("service_drop");
            drop(svc);
        }
        "solo_reqres" => {
            phase("service_create");
            let svc = must!(node.service_builder(&sname).request_response::<Msg, Msg>().create(), "service create");
            phase("port_create");
            let c = must!(svc.client_builder().create(), "client");
            let s = must!(svc.server_builder().create(), "server");
            phase("messages");
            for i in 1..=2u64 {
                let pending = must!(c.send_copy(Msg::new(i)), "send request");
                if let Some(ar) = must!(s.receive(), "server receive") {
                    must!(ar.send_copy(Msg::new(100 + i)), "send response");
                }
                let _ = must!(pending.receive(), "pending receive");
            }
            phase("port_drop");
            drop(s);
            drop(c);
            phase("service_drop");
            drop(svc);
        }
        "solo_blackboard" => {
            phase("service_create");
            let svc = must!(node.service_builder(&sname).blackboard_creator::<u64>().add::<u64>(1, 10).add::<u64>(2, 20).create(), "service create");
            phase("port_create");
            let w = must!(svc.writer_builder().create(), "writer");
            let r = must!(svc.reader_builder().create(), "reader");
            phase("messages");
            {
                let hm = must!(w.entry::<u64>(&1), "entry mut");
                let h = must!(r.entry::<u64>(&1), "entry");
                for i in 1..=3u64 {
                    hm.update_with_copy(i);
                    let _ = h.get();
                }
            }
            phase("port_drop");
            drop(r);
            drop(w);
            phase("service_drop");
            drop(svc);
        }
        // ---- join an existing service (created by the survivor) with one port --------------
        "join_pub" | "join_sub" => {
            phase("service_open");
            let svc = must!(node.service_builder(&sname).publish_subscribe::<Msg>().open(), "service open");
            phase("port_create");
            if scenario == "join_pub" {
                let p = must!(svc.publisher_builder().create(), "publisher");
                phase("messages");
                for i in 1..=3u64 {
                    must!(p.send_copy(Msg::new(1000 + i)), "send");
                }
                phase("port_drop");
                drop(p);
            } else {
                let s = must!(svc.subscriber_builder().create(), "subscriber");
                phase("messages");
                for _ in 0..3 {
                    if let Some(m) = must!(s.receive(), "receive") {
                        if !m.ok() {
                            die("corrupt sample".into());
                        }
                    }
                }
                phase("port_drop");
                drop(s);
            }
            phase("service_drop");
            drop(svc);
        }
        "join_notifier" | "join_listener" => {
            phase("service_open");
            let svc = must!(node.service_builder(&sname).event().open(), "service open");
            phase("port_create");
            if scenario == "join_notifier" {
                let n = must!(svc.notifier_builder().create(), "notifier");
                phase("messages");
                for i in 1..=3usize {
                    must!(n.notify_with_custom_event_id(EventId::new(i)), "notify");
                }
                phase("port_drop");
                drop(n);
            } else {
                let l = must!(svc.listener_builder().create(), "listener");
                phase("messages");
                for _ in 0..3 {
                    must!(l.try_wait(|_| {}), "try_wait");
                }
                phase("port_drop");
                drop(l);
            }
            phase("service_drop");
            drop(svc);
        }
        "join_client" | "join_server" => {
            phase("service_open");
            let svc = must!(node.service_builder(&sname).request_response::<Msg, Msg>().open(), "service open");
            phase("port_create");
            if scenario == "join_client" {
                let c = must!(svc.client_builder().create(), "client");
                phase("messages");
                let pending = must!(c.send_copy(Msg::new(2001)), "send request");
                let _ = must!(pending.receive(), "pending receive");
                let pending2 = must!(c.send_copy(Msg::new(2002)), "send request");
                phase("port_drop");
                drop(pending);
                drop(pending2);
                drop(c);
            } else {
                let s = must!(svc.server_builder().create(), "server");
                phase("messages");
                for _ in 0..2 {
                    if let Some(ar) = must!(s.receive(), "server receive") {
                        if !ar.payload().ok() {
                            die("corrupt request".into());
                        }
                        must!(ar.send_copy(Msg::new(3001)), "send response");
                    }
                }
                phase("port_drop");
                drop(s);
            }
            phase("service_drop");
            drop(svc);
        }
        "join_reader" | "join_writer" => {
            phase("service_open");
            let svc = must!(node.service_builder(&sname).blackboard_opener::<u64>().open(), "service open");
            phase("port_create");
            if scenario == "join_reader" {
                let r = must!(svc.reader_builder().create(), "reader");
                phase("messages");
                {
                    let h = must!(r.entry::<u64>(&1), "entry");
                    for _ in 0..3 {
                        let _ = h.get();
                    }
                }
                phase("port_drop");
                drop(r);
            } else {
                let w = must!(svc.writer_builder().create(), "writer");
                phase("messages");
                {
                    let hm = must!(w.entry::<u64>(&1), "entry mut");
                    for i in 1..=3u64 {
                        hm.update_with_copy(4000 + i);
                    }
                }
                phase("port_drop");
                drop(w);
            }
            phase("service_drop");
            drop(svc);
        }
        other => die(format!("unknown scenario {other}")),
    }
    phase("node_drop");
    drop(node);
    phase("end");
}

mod atomic_kill {
    //! crash at the n-th shared-memory atomic write (store / RMW / successful CAS), counted
    //! from the moment the hook is installed
    use iceoryx2_pal_concurrency_sync::atomic as a;
    use std::sync::atomic::{AtomicU64, Ordering};

    static COUNT: AtomicU64 = AtomicU64::new(0);
    static KILL_AT: AtomicU64 = AtomicU64::new(0);
    static COUNT_ONLY: AtomicU64 = AtomicU64::new(0);

    fn pre(_addr: usize, _size: u8, kind: a::Kind, _o: a::Ordering) {
        if matches!(kind, a::Kind::Store | a::Kind::Rmw) {
            let n = COUNT.fetch_add(1, Ordering::SeqCst) + 1;
            if n == KILL_AT.load(Ordering::Relaxed) {
                unsafe { libc::kill(libc::getpid(), libc::SIGKILL) };
            }
        }
    }
    fn load(_addr: usize, _size: u8, _o: a::Ordering, real: u64) -> u64 {
        real
    }
    fn post(_addr: usize, _size: u8, _k: a::Kind, _o: a::Ordering, _old: u64, _new: u64) {}
    static HOOKS: a::Hooks = a::Hooks { pre, load, post };

    extern "C" fn report() {
        if COUNT_ONLY.load(Ordering::Relaxed) == 1 {
            eprintln!("VERIF_ATOMIC_WRITES={}", COUNT.load(Ordering::SeqCst));
        }
    }

    pub fn install() {
        if let Ok(v) = std::env::var("VERIF_CHILD_ATOMIC_KILL") {
            if v == "count" {
                COUNT_ONLY.store(1, Ordering::Relaxed);
                unsafe { libc::atexit(report) };
            } else {
                KILL_AT.store(v.parse().unwrap_or(0), Ordering::Relaxed);
            }
            unsafe { a::set_hooks(&HOOKS) };
        }
    }
}
