extern crate iceoryx2_bb_loggers;
use vice::vtrace::*;
fn main() {
    let exe = std::env::current_exe().unwrap().parent().unwrap().join("vchild");
    let root = vcore::util::run_dir().join("probe");
    let args: Vec<String> = vec![root.to_str().unwrap().into(), "tp_".into(), std::env::args().nth(1).unwrap_or("solo_pubsub".into())];
    let t0 = std::time::Instant::now();
    let steps = reference_run(&exe, &args, &[]).unwrap();
    println!("{} steps in {:?}", steps.len(), t0.elapsed());
    for s in steps.iter().take(400) { println!("{:3} [{}] {} {}", s.index, s.phase, s.name, s.detail); }
    let t0 = std::time::Instant::now();
    let mut t = run_to_step(&exe, &args, &[], 60).unwrap().unwrap();
    println!("stopped at step 60 after {:?}; alive {}", t0.elapsed(), t.is_alive());
    t.kill();
    let _ = std::fs::remove_dir_all(vcore::util::run_dir());
}
