//! C07 — liveness verdicts are sound and stale cleanup is exclusive.
//!
//! Generated input: the interleaving point. The monitored process (`vchild`) is driven by the
//! ptrace stepper to every boundary between two of its state-changing system calls; at that
//! boundary the monitor's query runs in another process (this one, or a second stepped child
//! whose own system calls are interleaved with the victim's); crash points and racing cleaners
//! are enumerated / generated the same way.
extern crate iceoryx2_bb_loggers;

use iceoryx2::node::{NodeCleanupFailure, NodeState, NodeView};
use iceoryx2::prelude::*;
use iceoryx2_bb_container::semantic_string::SemanticString;
use iceoryx2_bb_posix::process_state::{ProcessCleaner, ProcessMonitor, ProcessState};
use iceoryx2_bb_system_types::file_path::FilePath;
use serde::{Deserialize, Serialize};
use vcore::{Ctx, Failure, Obs, Spec, ensure, fail};
use vice::domain::Domain;
use vice::vtrace::{self, Event, Tracee};

const SPEC: Spec = Spec {
    prop: "C07",
    level: "fault_enumeration",
    rule: "case = (level, scenario, interleaving/crash point): the monitored child is stopped at the entry of its k-th state-changing system call (every k of the reference run) and the liveness query / cleaner construction is issued from another process at that boundary (parts *.step); it is killed at every k and queried afterwards (parts *.crash); a second traced process running the public Node::list is interleaved call-by-call with the victim's node destruction (part node.interleave: observer position j x victim window a..b); 2..4 cleaner processes are interleaved call-by-call by a generated schedule, optionally one of them killed (part cleaners.race); oracle: a process that exists is never reported Dead and no cleaner can be built for it; a dead process is never reported Alive; exactly one cleaner performs a cleanup, the others are told so, nothing remains; non-trivial = the query landed strictly between the first and last system call of creation or destruction, or at least two cleaners overlapped; distinct = the whole case",
    assumptions: &[
        "interleaving granularity is the system call of the monitored process (and of the observer in node.interleave / cleaners.race)",
        "time-outs are never measured: the 'within the creation timeout' clause is checked as 'the API's own time-out path returns', with a small configured creation_timeout",
    ],
    watchdog_quick_s: 1500,
    watchdog_thorough_s: 10800,
};

type S = ipc::Service;

#[derive(Clone, Debug, Serialize, Deserialize, Hash)]
pub struct Case {
    pub scenario: String,
    /// victim position (step index in its region)
    pub k: u64,
    /// node.interleave: observer position and how far the victim advances while the observer waits
    #[serde(default)]
    pub j: u64,
    #[serde(default)]
    pub advance: u64,
    /// cleaners.race: which cleaner advances next (indices), and who is killed at which of its steps
    #[serde(default)]
    pub schedule: Vec<u8>,
    #[serde(default)]
    pub cleaners: u8,
    #[serde(default)]
    pub kill: Option<(u8, u16)>,
}

fn exe() -> std::path::PathBuf {
    std::env::current_exe().unwrap().parent().unwrap().join("vchild")
}

fn args(d: &Domain, scenario: &str, extra: &str) -> Vec<String> {
    let mut v = vec![d.root.to_str().unwrap().to_string(), d.prefix.clone(), scenario.to_string()];
    if !extra.is_empty() {
        v.push(extra.to_string());
    }
    v
}

fn h(e: String) -> Failure {
    Failure::new("harness.trace", e)
}

// ------------------------------------------------------------------------------------------
// bb-posix level: ProcessGuard / ProcessMonitor / ProcessCleaner
// ------------------------------------------------------------------------------------------

fn guard_path(d: &Domain) -> (String, FilePath) {
    let p = d.root.join("guard").join("victim.state");
    let s = p.to_str().unwrap().to_string();
    let fp = FilePath::new(s.as_bytes()).expect("valid path");
    (s, fp)
}

fn guard_step(c: &Case, obs: &mut Obs, steps: &[vtrace::Step]) -> Result<(), Failure> {
    let mut d = Domain::new();
    d.config.global.creation_timeout = core::time::Duration::from_millis(100);
    let r = (|| {
        let (ps, fp) = guard_path(&d);
        let monitor = ProcessMonitor::new(&fp).map_err(|e| h(format!("{e:?}")))?;
        let Some(mut t) = vtrace::run_to_step(&exe(), &args(&d, "guard_only", &ps), &[], c.k as usize).map_err(h)? else {
            // the boundary after the last call: the victim has exited orderly
            let st = monitor.state();
            ensure!(matches!(st, Ok(ProcessState::DoesNotExist)), "guard.after_orderly_exit", "after an orderly exit the verdict is {st:?}");
            return Ok(());
        };
        // the victim exists (frozen at the boundary before its call k)
        let st = monitor.state();
        let phase = steps.get(c.k as usize).map(|s| s.phase.as_str()).unwrap_or("?");
        match &st {
            Ok(ProcessState::Dead) => fail!("guard.alive_reported_dead", "a running process is reported Dead at boundary {} (phase {phase}, next call {:?})", c.k, steps.get(c.k as usize)),
            Ok(s) => {
                if phase == "guard_hold" {
                    ensure!(*s == ProcessState::Alive, "guard.held_not_alive", "fully created guard reported {s:?}");
                }
                obs.class(match s {
                    ProcessState::Alive => "verdict_alive",
                    ProcessState::Starting => "verdict_starting",
                    ProcessState::CleaningUp => "verdict_cleaning_up",
                    ProcessState::DoesNotExist => "verdict_does_not_exist",
                    ProcessState::Dead => unreachable!(),
                });
            }
            Err(_) => obs.class("verdict_error"),
        }
        // nobody may obtain the cleaner while the process exists
        match ProcessCleaner::new(&fp) {
            Ok(cl) => {
                // do not let the bogus cleaner delete the victim's files on top of the violation
                use iceoryx2_bb_elementary_traits::testing::abandonable::Abandonable;
                ProcessCleaner::abandon(cl);
                fail!("guard.cleaner_for_running_process", "ProcessCleaner::new succeeded at boundary {} (phase {phase}) although the process exists", c.k);
            }
            Err(_) => {}
        }
        obs.nontrivial = (phase == "guard_create" || phase == "guard_drop") && c.k > 0;
        let code = t.finish();
        ensure!(code == Some(0), "guard.victim_disturbed", "the victim failed after being observed at boundary {}: exit {code:?}", c.k);
        let st = monitor.state();
        ensure!(matches!(st, Ok(ProcessState::DoesNotExist)), "guard.after_orderly_exit", "after an orderly exit the verdict is {st:?}");
        Ok(())
    })();
    d.cleanup();
    r
}

fn guard_crash(c: &Case, obs: &mut Obs, steps: &[vtrace::Step]) -> Result<(), Failure> {
    let mut d = Domain::new();
    d.config.global.creation_timeout = core::time::Duration::from_millis(100);
    let r = (|| {
        let (ps, fp) = guard_path(&d);
        let monitor = ProcessMonitor::new(&fp).map_err(|e| h(format!("{e:?}")))?;
        let Some(mut t) = vtrace::run_to_step(&exe(), &args(&d, "guard_only", &ps), &[], c.k as usize).map_err(h)? else {
            return Ok(());
        };
        t.kill();
        let phase = steps.get(c.k as usize).map(|s| s.phase.clone()).unwrap_or_default();
        let st = monitor.state();
        match st {
            Ok(ProcessState::Alive) => fail!("guard.dead_reported_alive", "killed at boundary {} (phase {phase}) but reported Alive", c.k),
            Ok(ProcessState::Dead) => {
                obs.class("crash_verdict_dead");
                // exactly one cleaner, then nothing remains
                let cl = ProcessCleaner::new(&fp).map_err(|e| Failure::new("guard.dead_not_collectable", format!("killed at boundary {} (phase {phase}): reported Dead but the cleaner cannot be obtained: {e:?}", c.k)))?;
                // (a second ProcessCleaner in the *same* process is not refused by the bb-posix
                // layer — record locks do not conflict within a process, and iceoryx2 guards that
                // case one level up; the property speaks about several processes, which
                // cleaners.race covers — so it is not demanded here)
                drop(cl);
                let st = monitor.state();
                ensure!(matches!(st, Ok(ProcessState::DoesNotExist)), "guard.cleanup_incomplete", "after the cleaner was dropped the verdict is {st:?}");
                let left: Vec<_> = std::fs::read_dir(d.root.join("guard")).map(|rd| rd.flatten().map(|e| e.file_name()).collect()).unwrap_or_default();
                ensure!(left.is_empty(), "guard.cleanup_incomplete", "files remain after cleanup: {left:?}");
                obs.nontrivial = true;
            }
            Ok(ProcessState::DoesNotExist) => obs.class("crash_verdict_does_not_exist"),
            Ok(ProcessState::Starting) => {
                ensure!(phase == "guard_create", "guard.starting_outside_setup", "killed in phase {phase} but reported Starting");
                obs.class("crash_verdict_starting");
                obs.nontrivial = true;
            }
            Ok(ProcessState::CleaningUp) => {
                ensure!(phase == "guard_drop", "guard.cleaning_up_outside_teardown", "killed in phase {phase} but reported CleaningUp");
                obs.class("crash_verdict_cleaning_up");
                obs.nontrivial = true;
            }
            Err(e) => fail!("guard.crash_verdict_error", "killed at boundary {} (phase {phase}): state() fails with {e:?}", c.k),
        }
        Ok(())
    })();
    d.cleanup();
    r
}

// ------------------------------------------------------------------------------------------
// node level
// ------------------------------------------------------------------------------------------

#[derive(Default, Debug)]
struct Listing {
    alive: Vec<u128>,
    dead: Vec<u128>,
    other: Vec<String>,
}

fn list_nodes(d: &Domain) -> Result<(Listing, Vec<NodeState<S>>), Failure> {
    let mut l = Listing::default();
    let mut states = vec![];
    let r = Node::<S>::list(&d.config, |st| {
        match &st {
            NodeState::Alive(v) => l.alive.push(v.id().value()),
            NodeState::Dead(v) => l.dead.push(v.id().value()),
            NodeState::Inaccessible(id) => l.other.push(format!("Inaccessible({})", id.value())),
            NodeState::Undefined(id) => l.other.push(format!("Undefined({})", id.value())),
        }
        states.push(st);
        CallbackProgression::Continue
    });
    if let Err(e) = r {
        fail!("node.list_error", "Node::list failed: {e:?}");
    }
    Ok((l, states))
}

/// Open finding shared with C04 (`cleanup.blocked_by_half_created_tag_of_dead_node`): the dead node's
/// directory still holds a service / port tag in creation (locked, mode 600) state; the cleanup does not
/// see such a tag, cannot remove the non-empty directory and fails with InternalError for ever.
const HALF_CREATED_TAG: &str = "node.dead_not_collectable.half_created_tag_of_dead_node";

const CLEANER_DIED_IN_TOKEN_REMOVAL: &str = "cleaners.leftover.cleaner_died_while_removing_monitor_token";
const DETAILS_GONE: &str = "node.dead_remains.cleanup_uses_global_config_when_node_details_are_gone";

fn dead_node_holds_locked_tag(d: &Domain, id: u128) -> Option<Vec<String>> {
    use std::os::unix::fs::PermissionsExt;
    let dir = d.root.join("nodes").join(format!("{id}"));
    let files: Vec<String> = std::fs::read_dir(&dir)
        .map(|rd| rd.flatten().map(|e| format!("{} (mode {:o})", e.file_name().to_string_lossy(), e.metadata().map(|m| m.permissions().mode() & 0o777).unwrap_or(0))).collect())
        .unwrap_or_default();
    if files.iter().any(|f| (f.contains(".service_tag") || f.contains(".port_tag")) && f.contains("mode 600")) { Some(files) } else { None }
}

/// true when the victim has already unlinked its own '.node_monitor' state file (orderly
/// destruction in progress) while its context / owner-lock files still exist
fn monitor_token_half_removed(d: &Domain) -> bool {
    let dir = d.root.join("nodes");
    let names: Vec<String> = std::fs::read_dir(&dir).map(|rd| rd.flatten().map(|e| e.file_name().to_string_lossy().to_string()).collect()).unwrap_or_default();
    let has_state = names.iter().any(|n| n.ends_with(".node_monitor"));
    let has_rest = names.iter().any(|n| n.ends_with(".node_monitor_context") || n.ends_with(".node_monitor_owner_lock"));
    !has_state && has_rest
}

/// Stepping at node level: the victim is advanced boundary by boundary in ONE run; at every
/// boundary the harness lists the nodes (public API) and, once the node id is known from an
/// earlier listing, also asks for the state of that id alone (the second half of a listing
/// that began earlier: `list` enumerates first and queries each id afterwards).
fn node_step(c: &Case, obs: &mut Obs) -> Result<(), Failure> {
    let mut d = Domain::new();
    d.config.global.creation_timeout = core::time::Duration::from_millis(100);
    let r = (|| {
        let mut t = Tracee::spawn(&exe(), &args(&d, &c.scenario, ""), &[]).map_err(h)?;
        let mut phase = String::new();
        let mut known: Option<iceoryx2::identifiers::UniqueNodeId> = None;
        let mut pending_known: Option<Failure> = None;
        let mut k = 0u64;
        let mut in_region = false;
        loop {
            match t.next() {
                Event::Marker(p) => {
                    in_region = p != "end" && (in_region || p == "begin");
                    phase = p;
                }
                Event::Exited(code) => {
                    ensure!(code == Some(0), "node.victim_disturbed", "victim exited with {code:?}");
                    break;
                }
                Event::Entry { name, detail, .. } => {
                    if !in_region {
                        continue;
                    }
                    k += 1;
                    // the victim process exists and is frozen before call k
                    let (l, states) = list_nodes(&d)?;
                    ensure!(l.dead.is_empty(), "node.alive_reported_dead", "Node::list reports the running node as Dead at boundary {k} (phase {phase}, next call {name} {detail})");
                    ensure!(l.other.is_empty(), "node.alive_reported_undefined", "Node::list reports {:?} at boundary {k} (phase {phase}, next call {name} {detail})", l.other);
                    for st in &states {
                        if let NodeState::Alive(v) = st {
                            known = Some(*v.id());
                        }
                    }
                    if let Some(id) = &known {
                        match iceoryx2::testing::get_node_state::<S>(id, &d.config) {
                            Ok(Some(NodeState::Dead(_))) => {
                                if phase == "node_drop" && monitor_token_half_removed(&d) {
                                    // known finding: keep walking the remaining boundaries
                                    if pending_known.is_none() {
                                        pending_known = Some(Failure::new("node.reported_dead_while_removing_own_monitor_token", format!("a listing that enumerated the node earlier and queries it at boundary {k} (phase {phase}, next call {name} {detail}) reports the running node as Dead: its '.node_monitor' file is already unlinked, the monitor reads CleaningUp, which is mapped to Dead")));
                                    }
                                    continue;
                                }
                                fail!("node.listed_earlier_reported_dead", "a listing that enumerated the node earlier and queries it at boundary {k} (phase {phase}, next call {name} {detail}) reports the running node as Dead")
                            }
                            Ok(_) => {}
                            Err(_) => obs.class("node_query_error"),
                        }
                        if phase == "node_drop" {
                            obs.nontrivial = true;
                        }
                    }
                    if phase == "node_create" && k > 1 {
                        obs.nontrivial = true;
                    }
                }
            }
        }
        let (l, _) = list_nodes(&d)?;
        ensure!(l.alive.is_empty() && l.dead.is_empty() && l.other.is_empty(), "node.after_orderly_exit", "after an orderly exit the domain lists {l:?}");
        let left = d.leftovers();
        ensure!(left.is_empty(), "node.after_orderly_exit", "after an orderly exit resources remain: {left:?}");
        if let Some(f) = pending_known {
            return Err(f);
        }
        Ok(())
    })();
    d.cleanup();
    r
}

fn node_crash(c: &Case, obs: &mut Obs) -> Result<(), Failure> {
    let mut d = Domain::new();
    d.config.global.creation_timeout = core::time::Duration::from_millis(100);
    let r = (|| {
        let Some(mut t) = vtrace::run_to_step(&exe(), &args(&d, &c.scenario, ""), &[], c.k as usize).map_err(h)? else {
            return Ok(());
        };
        t.kill();
        let (l, states) = list_nodes(&d)?;
        ensure!(l.alive.is_empty(), "node.dead_reported_alive", "killed at boundary {} but Node::list reports {:?} alive", c.k, l.alive);
        ensure!(l.other.is_empty(), "node.dead_reported_undefined", "killed at boundary {}: Node::list reports {:?}", c.k, l.other);
        for st in states {
            if let NodeState::Dead(v) = st {
                obs.nontrivial = true;
                obs.class("crash_reported_dead");
                let id = v.id().value();
                match v.blocking_remove_stale_resources(core::time::Duration::from_millis(200)) {
                    Ok(()) | Err(NodeCleanupFailure::ResourcesAlreadyCleanedUp) => {}
                    Err(e) => {
                        if let Some(files) = dead_node_holds_locked_tag(&d, id) {
                            fail!(HALF_CREATED_TAG, "killed at boundary {}: reported Dead but not collectable: {e:?}; the node directory holds a tag in creation state: {files:?}", c.k);
                        }
                        fail!("node.dead_not_collectable", "killed at boundary {}: reported Dead but not collectable: {e:?}", c.k)
                    }
                }
            }
        }
        if l.dead.is_empty() {
            obs.class("crash_reported_absent");
        }
        let (l2, _) = list_nodes(&d)?;
        if !l2.dead.is_empty() && l2.alive.is_empty() && l2.other.is_empty() && l2.dead.iter().all(|id| !d.root.join("nodes").join(format!("{id}")).join(format!("{}node.details", d.prefix)).exists()) {
            // open finding shared with C04 (`cleanup.uses_global_config_when_node_details_are_gone`)
            fail!(
                DETAILS_GONE,
                "killed at boundary {} during its own node destruction after node.details were removed: the cleanup falls back to Config::global_config(), reports success / 'already cleaned up', and the node stays listed as dead: {:?}",
                c.k,
                l2.dead
            );
        }
        ensure!(l2.alive.is_empty() && l2.dead.is_empty() && l2.other.is_empty(), "node.dead_remains", "after cleanup the domain lists {l2:?}");
        Ok(())
    })();
    d.cleanup();
    r
}

/// Two traced processes: the observer runs the public `Node::list`; it is frozen at its j-th
/// call, the victim advances `advance` calls from boundary k, then the observer finishes.
fn node_interleave(c: &Case, obs: &mut Obs) -> Result<(), Failure> {
    let mut d = Domain::new();
    d.config.global.creation_timeout = core::time::Duration::from_millis(100);
    let r = (|| {
        let Some(mut v) = vtrace::run_to_step(&exe(), &args(&d, &c.scenario, ""), &[], c.k as usize).map_err(h)? else {
            return Ok(());
        };
        let out = d.root.join("lister.out");
        let Some(mut o) = vtrace::run_to_step(&exe(), &args(&d, "lister", out.to_str().unwrap()), &[], c.j as usize).map_err(h)? else {
            // the observer finished before reaching call j: a plain listing at boundary k
            obs.class("observer_finished_early");
            let txt = std::fs::read_to_string(&out).unwrap_or_default();
            ensure!(!txt.contains("Dead"), "node.alive_reported_dead", "lister (not interleaved) at victim boundary {} reports: {txt:?}", c.k);
            v.finish();
            return Ok(());
        };
        let mut victim_alive = true;
        for _ in 0..c.advance {
            if let Event::Exited(_) = v.next() {
                victim_alive = false;
                break;
            }
        }
        let half_removed = monitor_token_half_removed(&d);
        let code = o.finish();
        ensure!(code == Some(0), "node.observer_failed", "the observer exited with {code:?}");
        let txt = std::fs::read_to_string(&out).unwrap_or_default();
        if victim_alive {
            if txt.contains("Dead") && half_removed {
                obs.nontrivial = true;
                v.finish();
                fail!(
                    "node.reported_dead_while_removing_own_monitor_token",
                    "Node::list (public API, second process), frozen at its call {} while the victim went from boundary {} to {} of its orderly node destruction, reports the node of the running process as Dead: {txt:?}",
                    c.j,
                    c.k,
                    c.k + c.advance
                );
            }
            ensure!(
                !txt.contains("Dead"),
                "node.list_reports_running_node_dead",
                "Node::list, frozen at its call {} while the victim went from boundary {} to {}, reports a node of a running process as Dead: {txt:?}",
                c.j,
                c.k,
                c.k + c.advance
            );
            ensure!(!txt.contains("Undefined") && !txt.contains("Error"), "node.list_reports_running_node_undefined", "interleaved Node::list (observer call {}, victim {}..{}) reports {txt:?}", c.j, c.k, c.k + c.advance);
            obs.nontrivial = c.advance > 0;
        }
        if txt.contains("Alive") {
            obs.class("interleaved_alive");
        }
        if txt.is_empty() {
            obs.class("interleaved_absent");
        }
        v.finish();
        Ok(())
    })();
    d.cleanup();
    r
}

/// file names without the domain prefix and without the unique ids (decimal runs of >= 10 digits)
fn normalised(left: &[String], prefix: &str) -> Vec<String> {
    let mut v: Vec<String> = left
        .iter()
        .map(|l| {
            let l = l.replace(prefix, "P_");
            let mut out = String::new();
            let mut digits = String::new();
            for ch in l.chars().chain(std::iter::once('\0')) {
                if ch.is_ascii_digit() {
                    digits.push(ch);
                } else {
                    if digits.len() >= 10 {
                        out.push('#');
                    } else {
                        out.push_str(&digits);
                    }
                    digits.clear();
                    if ch != '\0' {
                        out.push(ch);
                    }
                }
            }
            out
        })
        .collect();
    v.sort();
    v
}

/// the same victim killed at the same boundary, cleaned up by this process alone
fn lone_cleaner_leftovers(k: u64) -> Result<Vec<String>, Failure> {
    let mut d = Domain::new();
    d.config.global.creation_timeout = core::time::Duration::from_millis(100);
    let r = (|| {
        let Some(mut v) = vtrace::run_to_step(&exe(), &args(&d, "solo_pubsub", ""), &[], k as usize).map_err(h)? else {
            return Ok(vec![]);
        };
        v.kill();
        let (_, states) = list_nodes(&d)?;
        for st in states {
            if let NodeState::Dead(v) = st {
                let _ = v.try_remove_stale_resources();
            }
        }
        Ok(normalised(&d.leftovers(), &d.prefix))
    })();
    d.cleanup();
    r
}

struct RemoveDirOnDrop(std::path::PathBuf);
impl Drop for RemoveDirOnDrop {
    fn drop(&mut self) {
        let _ = std::fs::remove_dir_all(&self.0);
    }
}

/// Racing cleaners: a dead node (victim killed in the middle of a pub-sub lifecycle), 2..4
/// cleaner processes advanced call-by-call by the generated schedule.
fn cleaners_race(c: &Case, obs: &mut Obs) -> Result<(), Failure> {
    let mut d = Domain::new();
    d.config.global.creation_timeout = core::time::Duration::from_millis(100);
    let r = (|| {
        // produce the dead node
        let Some(mut v) = vtrace::run_to_step(&exe(), &args(&d, "solo_pubsub", ""), &[], c.k as usize).map_err(h)? else {
            return Ok(());
        };
        v.kill();
        let (l, _) = list_nodes(&d)?;
        if l.dead.is_empty() {
            obs.class("victim_not_listed");
            return Ok(());
        }
        let n = c.cleaners.clamp(2, 4) as usize;
        let mut pending_known: Option<Failure> = None;
        let mut ts: Vec<Tracee> = vec![];
        let mut outs = vec![];
        // the cleaners' reports live next to the domain root, not in it (the root is scanned for leftovers)
        let outdir = d.root.with_extension("cleaner-reports");
        std::fs::create_dir_all(&outdir).ok();
        let _rm = RemoveDirOnDrop(outdir.clone());
        let dead_ids = l.dead.clone();
        for i in 0..n {
            let out = outdir.join(format!("cleaner{i}.out"));
            ts.push(Tracee::spawn(&exe(), &args(&d, "cleaner", out.to_str().unwrap()), &[]).map_err(h)?);
            outs.push(out);
        }
        let mut steps_done = vec![0u16; n];
        let mut killed: Option<usize> = None;
        let mut overlapped = false;
        let mut started = vec![false; n];
        // the generated schedule, repeated; one step for every cleaner is appended to each round because
        // the generated part may name only some of the cleaners (the others would never finish)
        let effective: Vec<u8> = c.schedule.iter().copied().chain(0..n as u8).collect();
        let mut sched = effective.iter().cycle();
        let mut budget = 20_000;
        while ts.iter().any(|t| t.is_alive()) && budget > 0 {
            budget -= 1;
            let i = (*sched.next().unwrap_or(&0) as usize) % n;
            if !ts[i].is_alive() {
                continue;
            }
            match ts[i].next() {
                Event::Entry { .. } => {
                    steps_done[i] += 1;
                    started[i] = true;
                    if started.iter().filter(|s| **s).count() >= 2 && ts.iter().filter(|t| t.is_alive()).count() >= 2 {
                        overlapped = true;
                    }
                    if let Some((who, at)) = c.kill {
                        if who as usize % n == i && steps_done[i] == at && killed.is_none() {
                            ts[i].kill();
                            killed = Some(i);
                        }
                    }
                }
                Event::Marker(_) => {}
                Event::Exited(code) => {
                    ensure!(code == Some(0), "cleaners.cleaner_failed", "cleaner {i} exited with {code:?}");
                }
            }
        }
        ensure!(budget > 0, "harness.trace", "cleaner race did not terminate");
        let mut performed = 0;
        for (i, o) in outs.iter().enumerate() {
            if Some(i) == killed {
                continue;
            }
            let txt = std::fs::read_to_string(o).unwrap_or_default();
            for line in txt.lines() {
                let res = line.split_once(' ').map(|x| x.1).unwrap_or("");
                if res == "Ok(())" {
                    performed += 1;
                } else {
                    if res.contains("InternalError") {
                        if let Some(files) = dead_ids.iter().find_map(|id| dead_node_holds_locked_tag(&d, *id)) {
                            fail!(HALF_CREATED_TAG, "cleaner {i} was told {res}; the dead node's directory holds a tag in creation state: {files:?}");
                        }
                    }
                    ensure!(
                        res.contains("AnotherInstanceIsCleaningUpTheNode") || res.contains("ResourcesAlreadyCleanedUp"),
                        "cleaners.unexpected_result",
                        "cleaner {i} was told {res} (schedule {:?})",
                        c.schedule
                    );
                }
            }
        }
        ensure!(performed <= 1, "cleaners.not_exclusive", "{performed} cleaners performed the cleanup of one dead node");
        if killed.is_none() {
            ensure!(performed == 1, "cleaners.nobody_cleaned", "no cleaner performed the cleanup although none was killed");
        } else {
            obs.class("cleaner_killed");
        }
        // whatever happened, a later cleaner must get the domain clean
        let (_, states) = list_nodes(&d)?;
        for st in states {
            if let NodeState::Dead(v) = st {
                match v.blocking_remove_stale_resources(core::time::Duration::from_millis(500)) {
                    Ok(()) | Err(NodeCleanupFailure::ResourcesAlreadyCleanedUp) => {}
                    Err(e) => fail!("cleaners.uncollectable_after_cleaner_death", "after the race (killed cleaner: {killed:?}) the dead node cannot be collected: {e:?}"),
                }
            }
        }
        let (l2, _) = list_nodes(&d)?;
        ensure!(l2.alive.is_empty() && l2.dead.is_empty() && l2.other.is_empty(), "cleaners.dead_remains", "after the race the domain lists {l2:?}");
        let mut left = d.leftovers();
        if killed.is_some() && !left.iter().any(|l| l.ends_with(".node_monitor")) {
            // open finding shared with C04 (`leftover.cleaner_died_while_removing_monitor_token`): the killed
            // cleaner had unlinked the dead node's state file but not yet its owner-lock / context file
            let is_remnant = |l: &String| l.starts_with("nodes/") && l.matches('/').count() == 1 && (l.ends_with(".node_monitor_context") || l.ends_with(".node_monitor_owner_lock"));
            let remnants: Vec<String> = left.iter().filter(|l| is_remnant(l)).cloned().collect();
            if !remnants.is_empty() {
                left.retain(|l| !remnants.contains(l));
                pending_known = Some(Failure::new(CLEANER_DIED_IN_TOKEN_REMOVAL, format!("cleaner {killed:?} was killed while removing the dead node's monitoring token; what it had not yet unlinked stays for ever, no listing finds the node again: {remnants:?}")));
            }
        }
        if !left.is_empty() {
            // What a crash at this point leaves behind even when ONE undisturbed cleaner handles it is
            // C04's subject (and listed there); the race must not leave more than that.
            let lone = lone_cleaner_leftovers(c.k)?;
            let norm = normalised(&left, &d.prefix);
            if norm != lone {
                fail!("cleaners.leftover", "resources remain after the race (killed cleaner {killed:?}): {left:?}; a single undisturbed cleaner at the same crash point leaves {lone:?}");
            }
            obs.class("leftover_same_as_with_a_lone_cleaner");
        }
        obs.nontrivial = overlapped;
        if let Some(f) = pending_known {
            return Err(f);
        }
        Ok(())
    })();
    d.cleanup();
    r
}

fn reference(scenario: &str) -> Result<Vec<vtrace::Step>, String> {
    let mut d = Domain::new();
    d.config.global.creation_timeout = core::time::Duration::from_millis(100);
    let (ps, _) = guard_path(&d);
    let extra = match scenario {
        "guard_only" => ps,
        "lister" | "cleaner" => d.root.join("out").to_str().unwrap().to_string(),
        _ => String::new(),
    };
    let r = vtrace::reference_run(&exe(), &args(&d, scenario, &extra), &[]);
    d.cleanup();
    r
}

fn exec(ctx: &mut Ctx, part: &str, c: &Case, guard_steps: &[vtrace::Step]) {
    let run = |limit: u64| Ctx::forked(std::time::Duration::from_secs(limit), "observer.hang", |obs| match part {
        "guard.step" => guard_step(c, obs, guard_steps),
        "guard.crash" => guard_crash(c, obs, guard_steps),
        "node.step" => node_step(c, obs),
        "node.crash" => node_crash(c, obs),
        "node.interleave" => node_interleave(c, obs),
        _ => cleaners_race(c, obs),
    });
    let (mut obs, mut r) = run(120);
    if matches!(&r, Err(f) if f.signature.starts_with("observer.hang")) {
        // a genuine hang is deterministic: it must show again, otherwise it was the machine
        let (obs2, r2) = run(240);
        if !matches!(&r2, Err(f) if f.signature.starts_with("observer.hang")) {
            ctx.class("hang_not_reproduced", 1);
            obs = obs2;
            r = r2;
        }
    }
    ctx.record(part, vcore::rng::hash_str(&format!("{part}{c:?}")), &obs, || serde_json::to_value(c).unwrap());
    if let Err(f) = r {
        if f.signature == "harness.slow" {
            // counted as a discarded case (more than 1 % of them make the run inconclusive)
            ctx.class("case_discarded_slow_machine", 1);
            ctx.count_discarded();
            return;
        }
        if f.signature.starts_with("harness.") {
            // a tracing hiccup decides nothing about the property: the case is discarded and counted
            // (more than 1 % discarded cases make the run inconclusive)
            ctx.class("case_discarded_harness_problem", 1);
            ctx.note(format!("discarded: {}: {} (first such case: {})", f.signature, f.message, serde_json::to_string(c).unwrap_or_default()));
            ctx.count_discarded();
            return;
        }
        ctx.violation(part, &f, serde_json::to_value(c).unwrap());
    }
}

fn body(ctx: &mut Ctx) {
    vice::silence_iceoryx_log();
    ctx.pin_to_one_cpu();
    vice::domain::sweep_dead_domains();
    let guard_steps = match reference("guard_only") {
        Ok(s) => s,
        Err(e) => {
            ctx.inconclusive(format!("reference run guard_only: {e}"));
            return;
        }
    };
    for part in ["guard.step", "guard.crash", "node.step", "node.crash", "node.interleave", "cleaners.race"] {
        if let Some(c) = ctx.replay_case::<Case>(part) {
            exec(ctx, part, &c, &guard_steps);
            return;
        }
    }
    if ctx.replay.is_some() {
        return;
    }
    let base = |scenario: &str, k: u64| Case { scenario: scenario.into(), k, j: 0, advance: 0, schedule: vec![], cleaners: 0, kill: None };
    let mut i = 0u64;
    // ---- guard level: every boundary, both directions ----
    for part in ["guard.step", "guard.crash"] {
        if !ctx.part_enabled(part) {
            continue;
        }
        for k in 0..=guard_steps.len() as u64 {
            i += 1;
            if ctx.mine(i) {
                exec(ctx, part, &base("guard_only", k), &guard_steps);
            }
        }
        ctx.mark_exhaustive(format!("{part}: every system-call boundary of ProcessGuard creation, holding and destruction ({} boundaries)", guard_steps.len() + 1));
    }
    // ---- node level stepping: one run per scenario walks every boundary ----
    if ctx.part_enabled("node.step") {
        for s in ["node_only", "solo_event", "solo_pubsub"] {
            i += 1;
            if ctx.mine(i) {
                exec(ctx, "node.step", &base(s, 0), &guard_steps);
            }
        }
        ctx.mark_exhaustive("node.step: every system-call boundary of three node lifecycles (node only, event, publish-subscribe)");
    }
    // ---- node level crash points ----
    let node_steps = reference("solo_event").map(|v| v.len() as u64).unwrap_or(0);
    let node_only_steps = reference("node_only").unwrap_or_default();
    if ctx.part_enabled("node.crash") {
        let stride = ctx.scale(2, 1);
        for k in (0..=node_steps).step_by(stride) {
            i += 1;
            if ctx.mine(i) {
                exec(ctx, "node.crash", &base("solo_event", k), &guard_steps);
            }
        }
        for k in 0..=node_only_steps.len() as u64 {
            i += 1;
            if ctx.mine(i) {
                exec(ctx, "node.crash", &base("node_only", k), &guard_steps);
            }
        }
    }
    // ---- observer x victim interleavings around node destruction and creation ----
    if ctx.part_enabled("node.interleave") {
        let lister_steps = {
            // the lister's call count depends on whether a node exists; take it with a node present
            let mut d = Domain::new();
    d.config.global.creation_timeout = core::time::Duration::from_millis(100);
            let n = vtrace::run_to_step(&exe(), &args(&d, "node_only", ""), &[], node_only_steps.iter().position(|s| s.phase == "node_drop").unwrap_or(0)).ok().flatten();
            let r = vtrace::reference_run(&exe(), &args(&d, "lister", d.root.join("o").to_str().unwrap()), &[]).map(|v| v.len()).unwrap_or(0);
            drop(n);
            d.cleanup();
            r as u64
        };
        let first_drop = node_only_steps.iter().position(|s| s.phase == "node_drop").unwrap_or(0) as u64;
        let last = node_only_steps.len() as u64;
        let max_adv = ctx.scale(4, 8);
        // victim windows: all of destruction, and the second half of creation
        let mut windows: Vec<u64> = (first_drop.saturating_sub(1)..=last).collect();
        let create_len = node_only_steps.iter().filter(|s| s.phase == "node_create").count() as u64;
        windows.extend((create_len / 2)..create_len);
        // quick: every second observer position (which half depends on the seed) and advances 0, 1, 3;
        // thorough: the full product
        let (j_stride, j_off) = if ctx.quick() { (2usize, ctx.seed % 2) } else { (1, 0) };
        let advs: Vec<u64> = if ctx.quick() { vec![0, 1, 3] } else { (0..=max_adv).collect() };
        for k in windows {
            for j in (j_off..=lister_steps).step_by(j_stride) {
                for &adv in &advs {
                    i += 1;
                    if ctx.mine(i) {
                        let mut c = base("node_only", k);
                        c.j = j;
                        c.advance = adv;
                        exec(ctx, "node.interleave", &c, &guard_steps);
                    }
                }
            }
        }
        if !ctx.quick() {
            ctx.mark_exhaustive(format!("node.interleave: observer position (0..{lister_steps}) x victim boundary (destruction and late creation) x victim advance (0..{max_adv})"));
        }
    }
    // ---- racing cleaners ----
    if ctx.part_enabled("cleaners.race") {
        let total = ctx.scale(96u64, 2000);
        let mut rng = ctx.rng("cleaners.race");
        let victim_steps = reference("solo_pubsub").map(|v| v.len() as u64).unwrap_or(100);
        for _ in 0..ctx.share(total) {
            let n = rng.range(2, 4) as u8;
            let len = rng.range(1, 24) as usize;
            // runs of random length so that both fine and coarse interleavings occur
            let mut schedule = vec![];
            while schedule.len() < len {
                let who = rng.below(n as u64) as u8;
                for _ in 0..rng.range(1, 6) {
                    schedule.push(who);
                }
            }
            let kill = if rng.chance(1, 3) { Some((rng.below(n as u64) as u8, rng.range(1, 80) as u16)) } else { None };
            let k = rng.range(victim_steps / 3, victim_steps * 2 / 3);
            let mut c = base("solo_pubsub", k);
            c.cleaners = n;
            c.schedule = schedule;
            c.kill = kill;
            exec(ctx, "cleaners.race", &c, &guard_steps);
        }
    }
}

fn main() {
    vcore::main(SPEC, body);
}
